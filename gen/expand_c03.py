"""C03 — everything crossing the boundary is FFI-safe by the compiler's own rules — and the
repeatability half of C04.

The real generator (cglue_gen, driven as a library by engine/expander) expands every member of the
program grammar; the *printed* expansion is compiled as plain source with
`#![deny(improper_ctypes_definitions, improper_ctypes)]`, which makes rustc lint the generated vtable
fields and `extern "C"` wrappers (inside a proc-macro expansion those lints are silenced). A
positive-control crate that contains a tuple, a nested slice and a Rust-ABI function pointer must be
rejected by the same lints, otherwise the run is a machinery failure.
"""
import json
import os
import re
import shutil
import subprocess
import time

from pyreport import Report

WS = None  # set in run()

PROBE_TOML = """[package]
name = "%s"
version = "0.1.0"
edition = "2021"

[dependencies]
cglue = { path = "%s/cglue" }
cglue-macro = { path = "%s/cglue-macro" }
h_objbase = { path = "/verif/engine/h_objbase" }
instr = { path = "/verif/engine/instr" }
explore = { path = "/verif/engine/explore" }
"""

HEADER0 = "#![allow(warnings)]\n#![deny(improper_ctypes_definitions, improper_ctypes)]\n"
HEADER = HEADER0 + "#[allow(unused_imports)] use cglue::trait_group;\n"


def header_for(body_text):
    # inputs that already import the module at their root must not get it twice
    return HEADER0 if "use cglue :: trait_group ;" in body_text else HEADER

CONTROL_SRC = """
use cglue::*;
#[cglue_trait]
pub trait BadTuple { fn a(&self, t: (u8, u16)) -> u64; }
#[cglue_trait]
pub trait BadNested { fn b(&self, o: Option<&[u8]>) -> u64; }
#[cglue_trait]
pub trait BadFnPtr { fn c(&self, f: fn(u64) -> u64) -> u64; }
#[cglue_trait]
pub trait BadRet { fn d(&self) -> (u8, u8); }
"""

RUNTIME_SRC = """
use cglue::arc::{CArc, CArcSome};
use cglue::boxed::{CBox, CSliceBox};
use cglue::callback::{Callback, OpaqueCallback};
use cglue::forward::Fwd;
use cglue::iter::CIterator;
use cglue::option::COption;
use cglue::repr_cstring::{ReprCStr, ReprCString};
use cglue::result::CResult;
use cglue::slice::{CSliceMut, CSliceRef};
use cglue::trait_group::{c_void, CGlueObjContainer, CGlueTraitObj, NoContext};
use cglue::tuple::{CTup1, CTup2, CTup3, CTup4};
use cglue::vec::CVec;
#[repr(C)] pub struct S3 { a: u8, b: u16, c: u64 }
#[repr(C)] pub struct Vt { f: extern "C" fn(u64) -> u64 }
macro_rules! probe { ($name:ident, $t:ty) => { pub extern "C" fn $name(_a: $t) {} pub extern "C" fn ${concat(r_, $name)}() -> $t { loop {} } }; }
"""

# public C-compatible types that exist only with the `task` feature; by value they expose the waker function table
TASK_TYPES = [("crefwaker", "cglue::task::CRefWaker<'static>")]

OUTSIDE_SHAPES = re.compile(r"\b(opt_str|opt_slice)\b")

RUNTIME_TYPES = [
    ("cbox_u8", "CBox<'static, u8>"), ("cbox_s3", "CBox<'static, S3>"), ("cbox_void", "CBox<'static, c_void>"),
    ("cslicebox_u64", "CSliceBox<'static, u64>"), ("cslicebox_void", "CSliceBox<'static, c_void>"),
    ("carc_u64", "CArc<u64>"), ("carc_void", "CArc<c_void>"), ("carcsome_s3", "CArcSome<S3>"), ("carcsome_void", "CArcSome<c_void>"),
    ("csliceref_u8", "CSliceRef<'static, u8>"), ("csliceref_s3", "CSliceRef<'static, S3>"), ("cslicemut_u64", "CSliceMut<'static, u64>"),
    ("cvec_u8", "CVec<u8>"), ("cvec_s3", "CVec<S3>"),
    ("coption_u64", "COption<u64>"), ("coption_s3", "COption<S3>"), ("cresult_u64_u8", "CResult<u64, u8>"), ("cresult_s3_unit", "CResult<S3, ()>"),
    ("callback", "Callback<'static, u64, S3>"), ("opaque_callback", "OpaqueCallback<'static, u64>"),
    ("citerator_u64", "CIterator<'static, u64>"), ("citerator_s3", "CIterator<'static, S3>"),
    ("ctup1", "CTup1<u8>"), ("ctup2", "CTup2<u8, u64>"), ("ctup3", "CTup3<u8, u16, S3>"), ("ctup4", "CTup4<u8, u16, u32, u64>"),
    ("reprcstring", "ReprCString"), ("reprcstr", "ReprCStr<'static>"), ("fwd_mut", "Fwd<&'static mut u64>"),
    ("container", "CGlueObjContainer<CBox<'static, c_void>, CArc<c_void>, ()>"),
    ("traitobj", "CGlueTraitObj<'static, CBox<'static, c_void>, Vt, NoContext, ()>"),
    ("c_void_ref", "&'static c_void"),
]


def runtime_source():
    src = RUNTIME_SRC.replace("macro_rules! probe { ($name:ident, $t:ty) => { pub extern \"C\" fn $name(_a: $t) {} pub extern \"C\" fn ${concat(r_, $name)}() -> $t { loop {} } }; }\n", "")
    for name, ty in RUNTIME_TYPES:
        src += "pub extern \"C\" fn arg_%s(_a: %s) {}\npub extern \"C\" fn ret_%s() -> %s { loop {} }\n" % (name, ty, name, ty)
        src += "#[repr(C)] pub struct Field_%s { f: extern \"C\" fn(%s) -> %s }\n" % (name, ty, ty)
    return src


def write_if_changed(path, text):
    os.makedirs(os.path.dirname(path), exist_ok=True)
    if not os.path.exists(path) or open(path).read() != text:
        with open(path, "w") as f:
            f.write(text)


def inputs_for(tier, Ctx):
    shards = os.path.join(Ctx.ENGINE, "h_objects", "shards")
    ins = []
    for k in range(8):
        ins.append(("hs_%s%d" % (tier[0], k), os.path.join(shards, "hs_%s%d" % (tier[0], k), "src", "lib.rs"), "traits"))
    fams = ["hg_gn1", "hg_gn2", "hg_gn3", "hg_gopt", "hg_gali", "hg_gmut", "hg_gord", "hg_gcase", "hg_gfwd"] + (["hg_gn4"] if tier == "thorough" else [])
    for f in fams:
        ins.append((f, os.path.join(shards, f, "src", "lib.rs"), "groups"))
    ins.append(("life_defs", os.path.join(Ctx.ENGINE, "h_life", "src", "defs.rs"), "structure"))
    return ins


def expand(Ctx, exe, src, out, manifest_dir):
    env = dict(Ctx.ENV)
    env["CARGO_MANIFEST_DIR"] = manifest_dir
    p = subprocess.run([exe, "expand", src, out], env=env, stdout=subprocess.PIPE, stderr=subprocess.STDOUT, text=True)
    if p.returncode != 0:
        raise Ctx.Machinery("expander failed on %s: %s" % (src, p.stdout[-2000:]))


def signature(Ctx, exe, src, manifest_dir):
    env = dict(Ctx.ENV)
    env["CARGO_MANIFEST_DIR"] = manifest_dir
    p = subprocess.run([exe, "signature", src], env=env, stdout=subprocess.PIPE, stderr=subprocess.PIPE, text=True)
    if p.returncode != 0:
        raise Ctx.Machinery("expander signature failed on %s: %s" % (src, p.stderr[-2000:]))
    return json.loads(p.stdout)


def enclosing_mod(lines, lineno):
    """nearest preceding `pub mod tN {` / family name for a 1-based line number"""
    for i in range(min(lineno, len(lines)) - 1, -1, -1):
        m = re.match(r"pub mod ((?!cglue_)\w+) \{", lines[i])
        if m:
            return m.group(1)
    return None


def cargo_check(Ctx, ws, target):
    env = dict(Ctx.ENV)
    env["CARGO_TARGET_DIR"] = target
    p = subprocess.run(["cargo", "check", "--offline", "--workspace", "--message-format=json", "--keep-going"], cwd=ws, env=env,
                       stdout=subprocess.PIPE, stderr=subprocess.PIPE, text=True)
    msgs = []
    for line in p.stdout.splitlines():
        try:
            j = json.loads(line)
        except ValueError:
            continue
        if j.get("reason") == "compiler-message" and j["message"].get("level") == "error":
            msgs.append((j.get("target", {}).get("name", "?"), j["message"]))
    return p.returncode, msgs, p.stderr


def setup_ws(Ctx, repo):
    ws = os.path.join(Ctx.BUILD, "c03", "ws")
    os.makedirs(ws, exist_ok=True)
    write_if_changed(os.path.join(ws, "Cargo.toml"), "[workspace]\nresolver = \"2\"\nmembers = [\"probes/*\"]\n")
    write_if_changed(os.path.join(ws, ".cargo", "config.toml"), "[net]\noffline = true\n")
    lock = os.path.join(ws, "Cargo.lock")
    if not os.path.exists(lock):
        shutil.copy(os.path.join(Ctx.ENGINE, "Cargo.lock"), lock)
    return ws


# Rust-only types anywhere inside a vtable entry's signature, pointees included (rustc's definition lints stop at
# pointers: `&mut MaybeUninit<Option<u32>>` passes them although the foreign side has to read or write the Option)
_NPO_OK = r"(?:\s|&|extern\b|unsafe\b|for\s*<|(?::: )?(?:core|std) :: ptr :: NonNull|NonNull\b|(?::: )?(?:core|std) :: num :: NonZero|NonZero|Box\b)"
DEEP_RULES = [
    ("Option", re.compile(r"(?<![\w])Option\s*<\s*(?!" + _NPO_OK + ")")),
    ("Result", re.compile(r"(?<![\w])Result\s*<")),
    ("slice", re.compile(r"&\s*(?:'\w+\s+)?(?:mut\s+)?\[")),
    ("str", re.compile(r"(?<![\w])str(?![\w])")),
    ("String", re.compile(r"(?<![\w])String(?![\w])")),
    ("Vec", re.compile(r"(?<![\w])Vec\s*<")),
    ("dyn", re.compile(r"(?<![\w])dyn\s")),
]


def deep_rust_only(fty):
    """name of the first Rust-only type constructor found anywhere in a fn-pointer type (token string), or None"""
    for name, rx in DEEP_RULES:
        if rx.search(fty):
            return name
    return None


def store_signature(Ctx, exe_path, what):
    p = subprocess.run([exe_path, "signature-store"], env=dict(Ctx.ENV, CARGO_MANIFEST_DIR=os.path.join(Ctx.ENGINE, "h_objbase")),
                       stdout=subprocess.PIPE, stderr=subprocess.PIPE, text=True)
    if p.returncode != 0:
        raise Ctx.Machinery("expander signature-store (%s) failed: %s" % (what, p.stderr[-1500:]))
    return json.loads(p.stdout)


def build_ext_expander(Ctx):
    """the same expander built in its own workspace against cglue-gen with the `task` and `futures` features"""
    ws = os.path.join(Ctx.ROOT, "engine_ext")
    env = dict(Ctx.ENV)
    env.pop("RUSTFLAGS", None)
    env["CARGO_TARGET_DIR"] = os.path.join(Ctx.BUILD, "target-ext")
    p = subprocess.run(["cargo", "build", "--offline", "--release", "-p", "expander_ext"], cwd=ws, env=env, stdout=subprocess.PIPE, stderr=subprocess.STDOUT, text=True)
    if p.returncode != 0:
        Ctx.log(p.stdout[-3000:])
        raise Ctx.Machinery("cargo build failed for engine_ext/expander_ext")
    return os.path.join(Ctx.BUILD, "target-ext", "release", "expander_ext")


def run(prop, tier, replay, Ctx):
    repo = os.environ.get("VERIF_REPO_DIR", "/repo")
    Ctx.cargo_build("expander", ["expander"])
    exe = os.path.join(Ctx.TARGET, "release", "expander")
    rep = Report(prop, tier, "exploration", Ctx.ENV.get("VERIF_SEED", "0"))
    rep.assume("rustc's improper_ctypes / improper_ctypes_definitions lints are the yardstick for 'FFI-safe' (the property's own wording)")
    rep.assume("programs outside the grammar G (nested wrapped shapes, tuples, custom_impl bodies) are outside the claim; one nested shape, one tuple and one Rust-ABI fn pointer are compiled as positive controls that MUST be rejected")
    meta = {m["idx"]: m for m in json.load(open(os.path.join(Ctx.ENGINE, "h_objects", "shards", "traits_%s.json" % tier)))}
    if prop == "C04":
        return ("report", repeatability(rep, tier, Ctx, exe).build()) if replay is None else replay_c04(replay, tier, Ctx, exe)
    ws = setup_ws(Ctx, repo)
    probes = os.path.join(ws, "probes")
    # stale probes of the other tier must not be checked
    wanted = set()
    ins = inputs_for(tier, Ctx)
    line_maps = {}
    for name, src, kind in ins:
        crate = "p_" + name
        wanted.add(crate)
        out = os.path.join(probes, crate, "src", "lib.rs.tmp")
        os.makedirs(os.path.dirname(out), exist_ok=True)
        expand(Ctx, exe, src, out, os.path.join(Ctx.ENGINE, "h_objbase"))
        body = open(out).read().splitlines()
        # file-level inner attributes of the input (lint allows) must not follow the header's items
        while body and body[0].replace(" ", "").startswith("#!["):
            body.pop(0)
        text = header_for("\n".join(body)) + "\n".join(body) + "\n"
        os.remove(out)
        write_if_changed(os.path.join(probes, crate, "src", "lib.rs"), text)
        write_if_changed(os.path.join(probes, crate, "Cargo.toml"), PROBE_TOML % (crate, repo, repo))
        line_maps[crate] = text.splitlines()
    # runtime wrapper types
    wanted.add("p_runtime")
    write_if_changed(os.path.join(probes, "p_runtime", "Cargo.toml"), PROBE_TOML % ("p_runtime", repo, repo))
    write_if_changed(os.path.join(probes, "p_runtime", "src", "lib.rs"), "#![allow(warnings)]\n#![deny(improper_ctypes_definitions, improper_ctypes)]\n" + runtime_source())
    line_maps["p_runtime"] = open(os.path.join(probes, "p_runtime", "src", "lib.rs")).read().splitlines()
    # positive control
    wanted.add("p_control")
    ctl_in = os.path.join(Ctx.BUILD, "c03", "control_in.rs")
    write_if_changed(ctl_in, CONTROL_SRC)
    ctl_out = os.path.join(probes, "p_control", "src", "lib.rs.tmp")
    os.makedirs(os.path.dirname(ctl_out), exist_ok=True)
    expand(Ctx, exe, ctl_in, ctl_out, os.path.join(Ctx.ENGINE, "h_objbase"))
    write_if_changed(os.path.join(probes, "p_control", "src", "lib.rs"), HEADER + open(ctl_out).read())
    os.remove(ctl_out)
    write_if_changed(os.path.join(probes, "p_control", "Cargo.toml"), PROBE_TOML % ("p_control", repo, repo))
    for d in os.listdir(probes):
        if d not in wanted:
            shutil.rmtree(os.path.join(probes, d))
    t0 = time.time()
    rc, msgs, stderr = cargo_check(Ctx, ws, os.path.join(Ctx.BUILD, "target-c03"))
    Ctx.log("[C03] cargo check of %d probe crates: %.1fs" % (len(wanted), time.time() - t0))
    by_crate = {}
    for crate, m in msgs:
        by_crate.setdefault(crate, []).append(m)
    # ---- the control must fail, for the right reason
    ctl = by_crate.pop("p_control", [])
    ctl_lints = [m for m in ctl if (m.get("code") or {}).get("code") in ("improper_ctypes_definitions", "improper_ctypes")]
    if len(ctl_lints) < 3 or len(ctl_lints) != len(ctl):
        raise Ctx.Machinery("positive control: expected >= 3 FFI lint errors and nothing else, got %d lint / %d total: %s" % (
            len(ctl_lints), len(ctl), [m.get("message") for m in ctl][:5]))
    rep.note("ffi_lints", "positive_control_lint_errors", len(ctl_lints))
    rep.assume("lint errors on the generated `impl <user trait> for <opaque object>` of traits whose methods the user declared `extern \"C\"` are not counted: that item repeats the user's own signature; the vtable entries and wrappers of the same trait are linted")
    # ---- everything else must be clean; a non-lint error is a machinery failure (the expansion must compile)
    lint_errs = {}
    mirrored_user_sigs = 0
    for crate, ms in by_crate.items():
        for m in ms:
            code = (m.get("code") or {}).get("code")
            if code not in ("improper_ctypes_definitions", "improper_ctypes"):
                raise Ctx.Machinery("probe crate %s does not compile: %s" % (crate, (m.get("rendered") or m.get("message"))[:1500]))
            line = (m.get("spans") or [{}])[0].get("line_start", 0)
            ltxt = (line_maps.get(crate, []) + [""])[line - 1] if line else ""
            if re.match(r"impl\b.*\bT\d+ < > for CGlueO \{", ltxt) and "extern \"C\" fn" in ltxt:
                # the generated impl of the USER'S trait for the opaque object repeats the user's own `extern "C" fn` signature
                # (Rust types by the user's choice); the property speaks about the vtable entries and wrappers, which are other items
                mirrored_user_sigs += 1
                continue
            mod = enclosing_mod(line_maps.get(crate, []), line) if crate.startswith("p_hs_") else None
            lint_errs.setdefault((crate, mod), []).append(m)
    rep.note("ffi_lints", "lint_errors_on_mirrored_user_signatures(not counted)", mirrored_user_sigs)
    # ---- the library's feature-gated C-compatible types (cglue built with `task` + `futures`), in a workspace of their own so
    #      that the features are not unified into the other probe crates
    ws_t = os.path.join(Ctx.BUILD, "c03", "ws_task")
    write_if_changed(os.path.join(ws_t, "Cargo.toml"), "[workspace]\nresolver = \"2\"\nmembers = [\"p_runtime_task\"]\n")
    write_if_changed(os.path.join(ws_t, ".cargo", "config.toml"), "[net]\noffline = true\n")
    if not os.path.exists(os.path.join(ws_t, "Cargo.lock")):
        shutil.copy(os.path.join(repo, "Cargo.lock"), os.path.join(ws_t, "Cargo.lock"))
    write_if_changed(os.path.join(ws_t, "p_runtime_task", "Cargo.toml"),
                     "[package]\nname = \"p_runtime_task\"\nversion = \"0.1.0\"\nedition = \"2021\"\n\n[dependencies]\ncglue = { path = \"%s/cglue\", features = [\"task\", \"futures\"] }\n" % repo)
    task_src = "#![allow(warnings)]\n#![deny(improper_ctypes_definitions, improper_ctypes)]\n"
    for name, ty in TASK_TYPES:
        task_src += "pub extern \"C\" fn arg_%s(_a: %s) {}\npub extern \"C\" fn ret_%s() -> %s { loop {} }\n" % (name, ty, name, ty)
        task_src += "#[repr(C)] pub struct Field_%s { f: extern \"C\" fn(%s) -> %s }\n" % (name, ty, ty)
    task_src += "pub extern \"C\" fn arg_control_waker(_a: ::core::task::Waker) {}\n"
    write_if_changed(os.path.join(ws_t, "p_runtime_task", "src", "lib.rs"), task_src)
    rc_t, msgs_t, stderr_t = cargo_check(Ctx, ws_t, os.path.join(Ctx.BUILD, "target-c03"))
    task_lines = task_src.splitlines()
    task_errs = []
    for crate, m in msgs_t:
        code = (m.get("code") or {}).get("code")
        if crate != "p_runtime_task" or code not in ("improper_ctypes_definitions", "improper_ctypes"):
            raise Ctx.Machinery("probe crate %s (task features) does not compile: %s" % (crate, (m.get("rendered") or m.get("message"))[:1500]))
        task_errs.append(m)
    if rc_t != 0 and not msgs_t:
        raise Ctx.Machinery("cargo check (task features) failed without compiler messages: %s" % stderr_t[-1500:])
    ctl_t = [e for e in task_errs if "control_waker" in task_lines[(e.get("spans") or [{}])[0].get("line_start", 1) - 1]]
    if not ctl_t:
        raise Ctx.Machinery("positive control (task features): core::task::Waker by value in an extern \"C\" fn was not rejected")
    for name, ty in TASK_TYPES:
        mine = [e for e in task_errs if ("_%s" % name) in task_lines[(e.get("spans") or [{}])[0].get("line_start", 1) - 1]]
        viol = ("ffi_lint:runtime:%s" % name, "rustc rejects %s in an extern \"C\" signature (cglue features task + futures): %s" % (ty, mine[0].get("message"))) if mine else None
        rep.record("ffi_lints", {"runtime_type": ty, "features": "task,futures"}, obs=ty, violation=viol)
    if rc != 0 and not msgs:
        raise Ctx.Machinery("cargo check failed without compiler messages: %s" % stderr[-1500:])
    rep.rule("ffi_lints", "every trait of the grammar tier (see C01), every generated group family, the hand-written structure members (five wrap_with forms) and every runtime wrapper type x element type in argument, return and fn-pointer-field position is expanded by the real generator and compiled with the FFI lints denied; one case per trait / group family / runtime type; distinct = distinct shapes")
    outside = 0
    hand_errs = {}
    for idx, m in sorted(meta.items()):
        crate = "p_hs_%s%d" % (tier[0], m["shard"])
        errs = lint_errs.get((crate, "t%d" % idx))
        viol = None
        if errs and OUTSIDE_SHAPES.search(m["tag"]):
            # Option of a borrowed str / slice is neither a C-representable leaf type nor one of the documented wrapped shapes
            # (an Option the generator considers nullable-pointer-optimisable is documented to pass through unchanged): the
            # trait is outside the property's quantifier; the shape is in the grammar for C01/C02 only
            outside += 1
            rep.record("ffi_lints", {"trait": idx, "shape": m["tag"]}, obs=m["tag"], nontrivial=False)
            continue
        if errs:
            viol = ("ffi_lint:%s" % m["tag"].replace(" ", "_"), "rustc rejects the generated glue of trait T%d (%s): %s" % (idx, m["tag"], errs[0].get("message")))
        rep.record("ffi_lints", {"trait": idx, "shape": m["tag"]}, obs=m["tag"], violation=viol)
    for name, src, kind in ins:
        if kind == "traits":
            continue
        errs = [e for (c, mod), es in lint_errs.items() if c == "p_" + name for e in es]
        viol = ("ffi_lint:%s" % name, "rustc rejects generated code of %s: %s" % (name, errs[0].get("message"))) if errs else None
        rep.record("ffi_lints", {"input": name, "kind": kind}, obs=name, violation=viol)
    # errors in shard crates that could not be attributed to a trait module
    for (crate, mod), es in lint_errs.items():
        if not crate.startswith("p_hs_"):
            continue
        if mod is not None and not re.match(r"t\d+$", mod):
            hand_errs.setdefault(mod, []).extend(es)
        elif mod is None or int(mod[1:]) not in meta:
            rep.record("ffi_lints", {"crate": crate, "line": (es[0].get("spans") or [{}])[0].get("line_start")}, violation=("ffi_lint:unattributed", es[0].get("message")))
    # hand-written members of the shard crates (generic, lifetime-parameterised, associated-type, unsafe / extern "C" traits, ...)
    for crate, lines in sorted(line_maps.items()):
        if not crate.startswith("p_hs_"):
            continue
        for ln in lines:
            mm = re.match(r"pub mod ((?!cglue_)\w+) \{", ln)
            if mm and not re.match(r"t\d+$", mm.group(1)):
                es = hand_errs.get(mm.group(1))
                viol = ("ffi_lint:hand:%s" % mm.group(1), "rustc rejects the generated glue of hand-written member `%s`: %s" % (mm.group(1), es[0].get("message"))) if es else None
                rep.record("ffi_lints", {"hand_member": mm.group(1)}, obs=mm.group(1), violation=viol)
    rep.note("ffi_lints", "traits_outside_the_quantifier(Option of a borrowed str/slice; lint errors not judged)", outside)
    rt_errs = [e for (c, mod), es in lint_errs.items() if c == "p_runtime" for e in es]
    rt_lines = line_maps["p_runtime"]
    for name, ty in RUNTIME_TYPES:
        mine = [e for e in rt_errs if name in rt_lines[(e.get("spans") or [{}])[0].get("line_start", 1) - 1]]
        viol = ("ffi_lint:runtime:%s" % name, "rustc rejects %s in an extern \"C\" signature: %s" % (ty, mine[0].get("message"))) if mine else None
        rep.record("ffi_lints", {"runtime_type": ty}, obs=ty, violation=viol)
    # ---- structural pass: vtable fields are extern "C" fn, generated structs carry a C representation
    rep.rule("structure", "token-level pass over the same expansions and over the library's own built-in external traits (what cglue_builtin_ext_traits!() expands to, without features and with cglue-gen's task + futures features: Clone, fmt::*, AsRef, ..., Future, Stream, Sink): every field of every generated *Vtbl struct is an `extern \"C\" fn` pointer (plus zero-sized PhantomData markers) whose signature contains no Rust-only type constructor at any depth, pointees included (Option of a non-nullable-optimised payload, Result, slice, str, String, Vec, dyn), and every generated struct (vtables, RetTmp, containers, groups and their With/Final variants) carries #[repr(C)] or #[repr(transparent)]")
    sigs = [(name, signature(Ctx, exe, src, os.path.join(Ctx.ENGINE, "h_objbase"))) for name, src, kind in ins]
    sigs.append(("builtin_ext_traits", store_signature(Ctx, exe, "default features")))
    sigs.append(("builtin_ext_traits+task+futures", store_signature(Ctx, build_ext_expander(Ctx), "task + futures")))
    for name, sig in sigs:
        if name.startswith("builtin_ext_traits") and not any(st["struct"].endswith("Vtbl") for st in sig):
            raise Ctx.Machinery("the expansion of the built-in external traits (%s) contains no vtable" % name)
        for st in sig:
            sname = st["struct"]
            generated = "CGlue" in st["generics"] or sname.endswith("Vtbl") or "RetTmp" in sname
            if not generated:
                continue
            viol = None
            mt = re.match(r"T(\d+)(Vtbl|RetTmp)", sname)
            if mt and name.startswith("hs_") and int(mt.group(1)) in meta and OUTSIDE_SHAPES.search(meta[int(mt.group(1))]["tag"]):
                # outside the property's quantifier (see ffi_lints)
                rep.record("structure", {"input": name, "struct": sname}, obs=[sname], nontrivial=False)
                continue
            if not any("(C" in r or "transparent" in r for r in st["repr"]):
                viol = ("structure:no_repr_c", "generated struct %s in %s has no C representation (repr: %s)" % (sname, name, st["repr"]))
            elif sname.endswith("Vtbl"):
                for fname, fty in st["fields"]:
                    # zero-sized markers (whatever they are called, wherever they sit): not entries
                    if fname.startswith("_lt_") or fname.startswith("_ty_") or fname.startswith("_phantom") or re.match(r"^(?:::\s*)?(?:(?:core|std)\s*::\s*marker\s*::\s*)?PhantomData\s*<", fty.strip()):
                        continue
                    t = fty.replace("unsafe ", "")
                    t = re.sub(r"^for\s*<[^>]*>\s*", "", t)
                    if not t.startswith("extern \"C\" fn"):
                        viol = ("structure:non_c_abi_entry", "vtable %s field %s has type `%s` (not an extern \"C\" function pointer)" % (sname, fname, fty[:120]))
                        break
                    bad = deep_rust_only(t)
                    if bad:
                        viol = ("structure:rust_only_type_in_entry:%s" % bad, "vtable %s (%s) entry %s has the signature `%s`: a Rust-only `%s` is reachable from it (possibly behind a pointer), the foreign side cannot produce or read it" % (sname, name, fname, fty[:200], bad))
                        break
            rep.record("structure", {"input": name, "struct": sname}, obs=[sname, [f[1] for f in st["fields"]]], violation=viol)
    if replay is not None:
        return ("replay", 1 if rep.violations else 0)
    return ("report", rep.build())


# ------------------------------------------------------------------------------------------------
# C04 (c): repeated independent expansions give the same layout


def layout_sig(sig):
    return [[s["struct"], s["repr"], s["fields"]] for s in sig]


def _sig_job(args):
    exe, src, mdir, env = args
    e = dict(env)
    e["CARGO_MANIFEST_DIR"] = mdir
    p = subprocess.run([exe, "signature", src], env=e, stdout=subprocess.PIPE, stderr=subprocess.PIPE, text=True)
    if p.returncode != 0:
        return {"error": p.stderr[-1500:]}
    return {"sig": json.loads(p.stdout)}


def repeatability(rep, tier, Ctx, exe):
    from concurrent.futures import ThreadPoolExecutor
    n = 5 if tier == "quick" else 12
    rep.rule("repeatability", "the expander (the real cglue_gen) is run in %d fresh processes (fresh RandomState seeds) and from two different crates (CARGO_MANIFEST_DIR) over every input of the tier; the layout signature — for every generated #[repr(C)] struct the ordered list of (field, type tokens) — must be identical in every run; one case per (input, run)" % n)
    rep.assume("differences outside the layout signature (order of mod/impl items) are reported as a note, not judged")
    ins = inputs_for(tier, Ctx)
    dirs = [os.path.join(Ctx.ENGINE, "h_objbase"), os.path.join(Ctx.ENGINE, "h_runtime")]
    jobs = [(exe, src, dirs[k % 2], Ctx.ENV) for (name, src, kind) in ins for k in range(n)]
    with ThreadPoolExecutor(max_workers=16) as pool:
        results = list(pool.map(_sig_job, jobs))
    text_diffs = 0
    it = iter(results)
    for name, src, kind in ins:
        base = None
        base_full = None
        for k in range(n):
            r = next(it)
            if "error" in r:
                raise Ctx.Machinery("expander signature failed on %s: %s" % (src, r["error"]))
            sig = r["sig"]
            ls = layout_sig(sig)
            full = json.dumps(sig, sort_keys=True)
            viol = None
            if base is None:
                base, base_full = ls, full
            elif ls != base:
                diff = next((a[0] for a, b in zip(ls, base) if a != b), "struct list")
                viol = ("layout:nondeterministic_expansion", "expansion %d of %s differs from expansion 0 in the layout of %s" % (k, name, diff))
            elif full != base_full:
                text_diffs += 1
            rep.record("repeatability", {"input": name, "run": k, "from_crate": os.path.basename(dirs[k % 2])}, obs=[name, k, digest_sig(ls)], nontrivial=(k > 0), violation=viol)
    rep.note("repeatability", "runs_per_input", n)
    rep.note("repeatability", "non_layout_differences_observed", text_diffs)
    return rep


def digest_sig(ls):
    import hashlib
    return hashlib.sha1(json.dumps(ls, sort_keys=True).encode()).hexdigest()[:16]


def replay_c04(replay, tier, Ctx, exe):
    from pyreport import Report as R
    rep = repeatability(R("C04", tier, "exploration"), tier, Ctx, exe)
    return ("replay", 1 if rep.violations else 0)
